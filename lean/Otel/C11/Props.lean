/-
C11 — property theorems (statement clauses of properties.jsonl; helper lemmas are in Lemmas.lean and
Roundtrip.lean). Two clauses of the statement are false on the current tree and are therefore given
as witness + partial theorem + full statement: F10 (the constructor does not enforce the 4096-byte
member limit) and F30 (a parsed baggage may re-serialise above the limits).
-/
import Otel.C11.Roundtrip
namespace Otel.C11
open Otel Otel.Utf8 Otel.C11.Spec

/-! ## escaping -/

/-- "any UTF-8 including delimiters, percent signs, spaces…" (in fact any byte string): escaping
loses nothing, `PathUnescape(valueEscape(v)) = v`, and the escaped text consists of W3C
baggage-octets only (none of `, ; space " \`, no control or non-ASCII byte) with no bare `%`. -/
theorem escape_unescape (v : Bytes) :
    pathUnescape (valueEscape v) = some v ∧ escapedOK (valueEscape v) = true := by
  refine ⟨pathUnescape_valueEscape v, ?_⟩
  simp [escapedOK, valueEscape_octets, valueEscape_pctOK]

example : valueEscape [0x2C, 0x25, 0x20, 0xC5, 0xA1, 0x61] =
    [0x25, 0x32, 0x43, 0x25, 0x32, 0x35, 0x25, 0x32, 0x30, 0x25, 0x43, 0x35, 0x25, 0x41, 0x31, 0x61] := by decide

/-! ## Parse -/

/-- "when it succeeds, yields valid UTF-8 values … and respects the limits of 180 members, 8192
bytes in total and 4096 bytes per member": a successful `Parse` implies the header was within the
total and per-member sizes, and the result has unique RFC 7230 token keys, valid UTF-8 values, token
property keys with valid UTF-8 values, and at most 180 members. -/
theorem parse_sound (s : Bytes) (b : Baggage) (h : parse s = .ok b) : parsedOK s b = true := by
  unfold parse at h
  split at h
  · cases h
    rename_i he
    have : s = [] := by simpa using he
    subst this
    decide
  · split at h
    · cases h
    · rename_i hlen
      split at h
      · cases h
      · rename_i b' hb'
        split at h
        · cases h
        · rename_i hcount
          cases h
          have := parseLoop_sound _ _ _ hb' rfl rfl
          simp only [parsedOK, headerWithinLimits, wellFormed, Bool.and_eq_true, decide_eq_true_eq]
          exact ⟨⟨by omega, this.2.2⟩, ⟨this.1, this.2.1⟩, by omega⟩

/-- the hypothesis is satisfiable by a non-trivial header: OWS, a percent-encoded invalid byte
(replaced by U+FFFD), a duplicate key, two properties -/
example : parse [0x20, 0x6B, 0x3D, 0x25, 0x46, 0x46, 0x3B, 0x70, 0x3B, 0x71, 0x3D, 0x31, 0x2C, 0x6B, 0x3D, 0x32, 0x2C, 0x61, 0x3D] =
    .ok [⟨[0x6B], [0x32], []⟩, ⟨[0x61], [], []⟩] := by decide
example : parse [0x6B, 0x3D, 0x25, 0x46, 0x46, 0x3B, 0x70, 0x20, 0x3B, 0x3B, 0x71, 0x20, 0x3D, 0x20, 0x31] =
    .ok [⟨[0x6B], [0xEF, 0xBF, 0xBD], [⟨[0x70], [], false⟩, ⟨[0x71], [0x31], true⟩]⟩] := by decide

/-- "resolves duplicate keys to the last one": after a successful `Parse`, every list-member of the
header parsed on its own, and the member found under a key is the *last* list-member with that key
(and no member is found for a key that no list-member carries). -/
theorem parse_last_wins (s : Bytes) (b : Baggage) (h : parse s = .ok b) (hne : s ≠ []) (k : Bytes) :
    ∃ ms : List Member, (splitOn cComma s).map parseMember = ms.map .ok ∧
      lookup b k = ms.reverse.find? (fun m => m.key == k) := by
  unfold parse at h
  have he : s.isEmpty = false := by simpa using hne
  simp only [he, Bool.false_eq_true, if_false] at h
  split at h
  · cases h
  · split at h
    · cases h
    · rename_i b' hb'
      split at h
      · cases h
      · cases h
        obtain ⟨ms, h1, h2⟩ := parseLoop_lookup _ _ _ hb' k
        refine ⟨ms, h1, ?_⟩
        rw [h2]
        cases ms.reverse.find? (fun m => m.key == k) <;> rfl

/-! ## the constructor -/

/-- what `NewMemberRaw`/`NewMember` accept: non-empty valid UTF-8 keys, valid UTF-8 values and
properties ("invalid bytes must be rejected by the constructor") -/
theorem constructors_validate (k v : Bytes) (ps : List Property) (m : Member)
    (h : newMemberRaw k v ps = some m ∨ newMember k v ps = some m) : ctorMemberOK m = true := by
  have raw : ∀ k v, newMemberRaw k v ps = some m → ctorMemberOK m = true := by
    intro k v h
    unfold newMemberRaw at h
    split at h
    · cases h
    · split at h
      · cases h
      · split at h
        · cases h
          rename_i h1 h2 h3
          simp only [validateBaggageName, validateBaggageValue, Bool.not_eq_false,
            Bool.and_eq_true, Bool.not_eq_true'] at h1 h2
          simp only [ctorMemberOK, Bool.and_eq_true, Bool.not_eq_true']
          refine ⟨⟨⟨?_, ?_⟩, ?_⟩, ?_⟩
          · cases hk : k.isEmpty <;> simp_all
          · cases hk : k.isEmpty <;> simp_all
          · simpa using h2
          · rw [List.all_eq_true] at h3 ⊢
            intro p hp
            have := h3 p hp
            have hnil := validString_nil
            unfold Property.validate at this
            simp only [validateBaggageName, validateBaggageValue] at this
            cases hk : p.key.isEmpty <;> cases hv : validString p.key <;> cases hh : p.hasValue <;>
              cases he : p.value.isEmpty <;> cases hvv : validString p.value <;> simp_all
        · cases h
  rcases h with h | h
  · exact raw k v h
  · unfold newMember at h
    split at h
    · cases h
    · split at h
      · cases h
      · split at h
        · cases h
        · exact raw _ _ h

/-- "respects the limits … which the constructor enforces as well" — the part that holds: an
accepted baggage has unique keys, at most 180 members and serialises to at most 8192 bytes (for
every iteration order), and holds only members it was given. -/
theorem new_limits (ms : List (Option Member)) (b : Baggage) (h : new ms = .ok b)
    (order : List Member) (hp : order.Perm b) :
    keysNodup b = true ∧ b.length ≤ maxMembers ∧ (serialize order).length ≤ maxBytesPerBaggageString ∧
    ∀ m ∈ b, some m ∈ ms := by
  have ⟨h1, h2, h3, h4⟩ := new_sound ms b h
  exact ⟨h1, h2, by rw [serialize_length_perm _ _ hp]; exact h3, h4⟩

/-- every byte below 0x80 decodes to itself: ASCII strings are valid UTF-8 -/
private theorem validString_ascii (s : Bytes) (h : s.all (fun b => b.toNat < 0x80) = true) :
    validString s = true := by
  induction s with
  | nil => rfl
  | cons b r ih =>
    simp only [List.all_cons, Bool.and_eq_true, decide_eq_true_eq] at h
    unfold validString at ih ⊢
    rw [chunks_ascii b r h.1]
    simpa using ih h.2

private theorem valueEscape_safe (s : Bytes) (h : s.all (fun c => !shouldEscape c) = true) :
    valueEscape s = s := by
  induction s with
  | nil => rfl
  | cons c r ih =>
    simp only [List.all_cons, Bool.and_eq_true, Bool.not_eq_true'] at h
    rw [valueEscape_cons, ih h.2]
    simp [h.1]

/-- the member `k=aaa…a` (`n` × `a`, `n + 2` bytes when serialised) -/
def aMember (n : Nat) : Member := ⟨[0x6B], List.replicate n 0x61, []⟩

private theorem aMember_string (n : Nat) : (aMember n).string = 0x6B :: 0x3D :: List.replicate n 0x61 := by
  have hv : valueEscape (List.replicate n 0x61) = List.replicate n 0x61 := by
    apply valueEscape_safe
    rw [List.all_eq_true]
    intro c hc
    rw [List.eq_of_mem_replicate hc]
    decide
  have hk : validateKey [0x6B] = true := by decide
  simp [aMember, Member.string, hk, hv, cEq]

private theorem oversize_general (n : Nat) (h1 : 4096 < n + 2) (h2 : n + 2 ≤ 8192) :
    newMemberRaw [0x6B] (List.replicate n 0x61) [] = some (aMember n) ∧
    new [some (aMember n)] = .ok [aMember n] ∧ F10_applies [aMember n] = true ∧
    parse (serialize [aMember n]) = .error .memberBytes := by
  have hval : validString (List.replicate n (0x61 : UInt8)) = true := by
    apply validString_ascii
    rw [List.all_eq_true]
    intro c hc
    rw [List.eq_of_mem_replicate hc]
    decide
  have hser : serialize [aMember n] = 0x6B :: 0x3D :: List.replicate n 0x61 := by
    simp [serialize, aMember_string, joinWith]
  have hnocomma : (0x6B :: 0x3D :: List.replicate n (0x61 : UInt8)).all (fun c => c != cComma) = true := by
    rw [List.all_eq_true]
    intro c hc
    simp only [List.mem_cons] at hc
    rcases hc with rfl | rfl | hc
    · decide
    · decide
    · rw [List.eq_of_mem_replicate hc]; decide
  refine ⟨?_, ?_, ?_, ?_⟩
  · have hk : validateBaggageName [0x6B] = true := by decide
    simp [newMemberRaw, hk, validateBaggageValue, hval, aMember]
  · have e1 : ¬ (n + 1 + 1 > 8192) := by omega
    simp [new, newLoop, setMember, hser, maxMembers, maxBytesPerBaggageString, e1]
  · have e1 : 4096 < n + 1 + 1 := by omega
    simp [F10_applies, aMember_string, maxBytesPerMembers, e1]
  · rw [hser]
    unfold parse
    have e1 : ¬ (n + 1 + 1 > 8192) := by omega
    have e2 : n + 1 + 1 > 4096 := by omega
    simp only [List.isEmpty_cons, Bool.false_eq_true, if_false, List.length_cons, List.length_replicate,
      maxBytesPerBaggageString, e1]
    rw [splitOn_nosep cComma _ hnocomma]
    simp [parseLoop, parseMember, maxBytesPerMembers, e2]

/-- **F10** (known finding): `NewMemberRaw` accepts the member `k=a…a` with 4095 × `a`, `New`
accepts the baggage although the member serialises to 4097 > 4096 bytes, and `Parse(String())` then
rejects it — the constructor does *not* enforce the per-member limit. -/
theorem new_accepts_oversize_member_witness :
    newMemberRaw [0x6B] (List.replicate 4095 0x61) [] = some (aMember 4095) ∧
    new [some (aMember 4095)] = .ok [aMember 4095] ∧ F10_applies [aMember 4095] = true ∧
    parse (serialize [aMember 4095]) = .error .memberBytes :=
  oversize_general 4095 (by decide) (by decide)

/-- the statement's clause as written (false on the current tree, see the witness above) -/
def new_enforces_member_limit_full_statement : Prop :=
  ∀ (ms : List (Option Member)) (b : Baggage), new ms = .ok b → F10_applies b = false

/-! ## round trip -/

/-- "Any baggage the constructor accepts (valid keys, arbitrary UTF-8 values and properties, within
the size limits) serialises to a header that parses back to the same members, values and properties"
— for **every** iteration order of Go's map, provided no member serialises above 4096 bytes (F10).
`order` is the order in which `String()` happens to walk the map; the parse result is exactly that
list, i.e. the same map. -/
theorem baggage_roundtrip_partial (ms : List (Option Member)) (b : Baggage)
    (hctor : ∀ m, some m ∈ ms → ctorMemberOK m = true)
    (hnew : new ms = .ok b) (htok : tokenKeys b = true) (hf10 : F10_applies b = false)
    (order : List Member) (hperm : order.Perm b) : parse (serialize order) = .ok order := by
  have ⟨h1, h2, h3, h4⟩ := new_sound ms b hnew
  have hok : b.all memberOK = true := by
    rw [List.all_eq_true]
    intro m hm
    apply ctor_token_memberOK m (hctor m (h4 m hm))
    exact List.all_eq_true.mp htok m hm
  have hmem : ∀ m ∈ b, m.string.length ≤ maxBytesPerMembers := by
    intro m hm
    have := List.any_eq_false.mp hf10 m hm
    simpa using this
  apply roundtrip_core order (keysNodup_perm _ _ hperm h1) (all_perm _ _ _ hperm hok)
  · rw [hperm.length_eq]; exact h2
  · rw [serialize_length_perm _ _ hperm]; exact h3
  · exact fun m hm => hmem m (hperm.mem_iff.mp hm)

/-- the full statement (false on the current tree because of F10) -/
def baggage_roundtrip_full_statement : Prop :=
  ∀ (ms : List (Option Member)) (b : Baggage), (∀ m, some m ∈ ms → ctorMemberOK m = true) →
    new ms = .ok b → tokenKeys b = true → ∀ order : List Member, order.Perm b → parse (serialize order) = .ok order

/-- non-vacuity: two members, delimiters/percent/space/non-ASCII in value and property value -/
example :
    let m1 : Member := ⟨[0x6B], [0x2C, 0x25, 0x20, 0xC5, 0xA1], [⟨[0x70], [0x3B, 0x3D], true⟩, ⟨[0x71], [], false⟩]⟩
    let m2 : Member := ⟨[0x61], [], []⟩
    new [some m1, some m2] = .ok [m1, m2] ∧ tokenKeys [m1, m2] = true ∧ F10_applies [m1, m2] = false ∧
      parse (serialize [m2, m1]) = .ok [m2, m1] := by decide

/-- "Inject followed by Extract with the baggage propagator is the identity on it" (same
hypotheses): the extracted baggage is the injected one, for every iteration order. -/
theorem propagator_inject_extract_partial (ms : List (Option Member)) (b : Baggage)
    (hctor : ∀ m, some m ∈ ms → ctorMemberOK m = true)
    (hnew : new ms = .ok b) (htok : tokenKeys b = true) (hf10 : F10_applies b = false)
    (order : List Member) (hperm : order.Perm b) : (extract (inject order)).Perm b := by
  have hrt := baggage_roundtrip_partial ms b hctor hnew htok hf10 order hperm
  unfold inject extract
  simp only
  by_cases he : (serialize order).isEmpty = true
  · simp only [he, if_true]
    have : serialize order = [] := by simpa using he
    rw [this] at hrt
    have : order = [] := by
      have h0 : parse [] = .ok [] := rfl
      rw [h0] at hrt
      cases hrt; rfl
    rw [this] at hperm
    exact hperm
  · simp only [he, Bool.false_eq_true, if_false, hrt]
    exact hperm

/-! ## stability of Parse -/

/-- "is stable under re-serialising and re-parsing" — provided the parsed baggage still serialises
within the limits (F30): for every iteration order, re-parsing the re-serialised result gives the
same map. -/
theorem parse_string_stable_partial (s : Bytes) (b : Baggage) (h : parse s = .ok b)
    (hf30 : F30_applies b = false) (order : List Member) (hperm : order.Perm b) :
    parse (serialize order) = .ok order := by
  have hs := parse_sound s b h
  simp only [parsedOK, wellFormed, Bool.and_eq_true, decide_eq_true_eq] at hs
  obtain ⟨_, ⟨hk, hok⟩, hcnt⟩ := hs
  simp only [F30_applies, Bool.or_eq_false_iff, decide_eq_false_iff_not] at hf30
  have hmem : ∀ m ∈ b, m.string.length ≤ maxBytesPerMembers := by
    intro m hm
    have := List.any_eq_false.mp hf30.1 m hm
    simpa using this
  apply roundtrip_core order (keysNodup_perm _ _ hperm hk) (all_perm _ _ _ hperm hok)
  · rw [hperm.length_eq]; exact hcnt
  · rw [serialize_length_perm _ _ hperm]; omega
  · exact fun m hm => hmem m (hperm.mem_iff.mp hm)

/-- the header `k=%FF%FF…` (455 × `%FF`, 1367 bytes) -/
def f30Header : Bytes := [0x6B, 0x3D] ++ (List.replicate 455 [0x25, 0x46, 0x46]).flatten
/-- what it parses to: 455 × U+FFFD (1365 bytes), which `String()` escapes as 455 × `%EF%BF%BD` -/
def f30Baggage : Baggage := [⟨[0x6B], (List.replicate 455 [0xEF, 0xBF, 0xBD]).flatten, []⟩]

set_option maxRecDepth 10000000 in
/-- **F30** (known finding): `Parse` accepts the 1367-byte header; every `%FF` becomes an invalid
byte, replaced by U+FFFD; the result re-serialises to 2 + 9·455 = 4097 bytes and `Parse` rejects
that — parsing is *not* stable under re-serialising and re-parsing. (Kernel evaluation, `decide`.) -/
theorem parse_string_unstable_witness :
    parse f30Header = .ok f30Baggage ∧ F30_applies f30Baggage = true ∧
    parse (serialize f30Baggage) = .error .memberBytes := by decide

/-- the statement's clause as written (false on the current tree: F30) -/
def parse_string_stable_full_statement : Prop :=
  ∀ (s : Bytes) (b : Baggage), parse s = .ok b → ∀ order : List Member, order.Perm b →
    parse (serialize order) = .ok order

/-! ## immutability -/

/-- "setting or deleting a member returns a new value": the result of `SetMember` holds the member
under its key and is unchanged at every other key; `DeleteMember` removes the key and changes
nothing else; keys stay unique. -/
theorem set_delete_pure (b : Baggage) (m : Member) (key k : Bytes) (hk : keysNodup b = true) :
    lookup (setMember b m) k = (if m.key = k then some m else lookup b k) ∧
    lookup (deleteMember b key) k = (if key = k then none else lookup b k) ∧
    keysNodup (setMember b m) = true ∧ keysNodup (deleteMember b key) = true :=
  ⟨lookup_setMember b m k, lookup_deleteMember b key k, keysNodup_setMember b m hk,
    keysNodup_filter _ b hk⟩

/-- "… and never alters the receiver or its copies held in other contexts": in the model of the
code (a fresh map is allocated by every `SetMember`/`DeleteMember`, no existing map is written)
every value that existed before an edit script is unchanged after it, whatever the script. -/
theorem edits_never_touch_existing (heap : List Baggage) (es : List Edit) (i : Nat) (hi : i < heap.length) :
    (runEdits heap es)[i]? = heap[i]? := by
  induction es generalizing heap with
  | nil => rfl
  | cons e t ih =>
    simp only [runEdits, List.foldl_cons] at ih ⊢
    have hlen : i < (applyEdit heap e).length := by
      cases e <;> simp [applyEdit] <;> omega
    rw [ih (applyEdit heap e) hlen]
    cases e <;> simp [applyEdit, List.getElem?_append_left hi]

example : runEdits [[⟨[0x6B], [0x31], []⟩]] [.set 0 (some ⟨[0x6B], [0x32], []⟩), .del 0 [0x6B], .set 1 none] =
    [[⟨[0x6B], [0x31], []⟩], [⟨[0x6B], [0x32], []⟩], [], [⟨[0x6B], [0x32], []⟩]] := by decide

end Otel.C11
