import json,sys
pid=sys.argv[1]
for l in open('/verif/properties.jsonl'):
    p=json.loads(l)
    if p['id']==pid: break
files=", ".join(p['anchors']['files'])
W=f"/tmp/seed6-{pid}"
print(f"""You are a software engineer doing a robustness study of the Go repository open-telemetry/opentelemetry-go. You have your OWN scratch git worktree of it at {W} (work ONLY there; never touch /repo, never look into or use anything under /verif — that directory is off limits for this task; do not read other /tmp/seed* directories).

A semantic property that users of the library rely on:

TITLE: {p['title']}
STATEMENT: {p['statement']}
QUANTIFIED OVER: {p['quantifier']['text']}
Code most involved: {files}

YOUR TASK: produce TWO different, independent changes ("seeded defects") to the library's non-test source code, each of which BREAKS this property while the code still compiles and the repository's EXISTING test suite still passes unedited. Make them realistic — the kind of regression a plausible refactoring, optimisation, clean-up or "simplification" could introduce — and make each one need something SPECIFIC to manifest: a particular interleaving, a fault or error at a particular point, a multi-step sequence of operations, an unusual input or boundary value, or two cooperating sites that each look fine alone. Do NOT produce changes that ordinary use would expose at once (e.g. breaking the happy path); the two changes must use different mechanisms and violate different clauses of the statement (change 1: a clause from the first half of the statement; change 2: a clause from the second half).

FOCUS FOR THIS ASSIGNMENT (other engineers already cover the obvious places): prefer changes that live in code the property depends on only through a call chain — helpers, option/constructor handling, wrappers, caches and pools, conversion and copy helpers, error paths, the less used public entry points and option combinations, state kept across calls (second call, second instance, reuse after an error, reuse after Shutdown/ForceFlush) — rather than in the central function of the files listed above. A good change is one that a reviewer reading only the diff would accept.

For each change k in {{1,2}} deliver, inside your worktree, a directory {W}/SEED/k/ containing:
- patch.diff — `git diff` (paths relative to the repo root, a/ b/ prefixes) of ONLY the library change (no test files, no SEED dir);
- a demonstration: a Go test file demo_test.go (with a comment at the top saying into which package directory it must be copied and how to run it), that FAILS (or deadlocks/panics/prints a wrong result with exit≠0) with the change applied and PASSES on the unchanged tree; it must be deterministic or reproduce within a few seconds with very high probability (force interleavings with channels/callbacks/gates rather than sleeping and hoping); name the tests TestSeed6{pid}_1… and TestSeed6{pid}_2…;
- meta.json — {{"property":"{pid}","clause":"<which clause of the statement is violated>","needs":"<what specific condition is needed for it to manifest>","summary":"<one paragraph: what was changed and why it breaks the property>","files":[…changed files…],"ran":["<exact commands you ran and their outcome>"]}}.

You MUST verify, yourself, for each change: (a) the changed module builds; (b) the existing tests of every Go module whose code you changed (and of modules that obviously exercise it) still pass with the change: e.g. `cd {W}/sdk && go test -mod=mod -vet=off -count=1 ./trace/...` (the whole module if it is quick); (c) the demonstration fails with the change and passes without it (use `git checkout -- <file>` in YOUR worktree to switch; do not use `git stash`, it is shared between worktrees). Keep the worktree clean at the end except for the SEED directory: the library change must live only in patch.diff (revert the working tree files after producing the diff; the demo file lives only under SEED/k/).

Ignore files named verif_on.go / verif_off.go and `verifPoint(...)` calls (test instrumentation, no-op in normal builds): do not build your change or demo on them.

Environment: no network. Use for every go command: `export GOFLAGS=-mod=mod GOPROXY=off GOSUMDB=off GOTOOLCHAIN=local`. The repository consists of several Go modules (go.mod files in sdk/, sdk/metric/, sdk/log/, trace/, metric/, exporters/…, and the root); run tests from the module directory.

Finish with a short report: for each change, one paragraph (what, why it breaks the property, what is needed to trigger it) and the verification commands with their results.""")
