import json,sys
pid=sys.argv[1]; focus=sys.argv[2]
import subprocess
base=subprocess.run(['python3','/tmp/seed-prompt.py',pid],capture_output=True,text=True).stdout
base=base.replace(f'/tmp/seed-{pid}',f'/tmp/seed5-{pid}')
base=base.replace('YOUR TASK:',f'FOCUS FOR THIS ASSIGNMENT: your two changes should violate these parts of the statement (other engineers cover the rest): {focus}.\n\nYOUR TASK:')
base+=f"\n\nAdditional rules: name your demo tests TestSeed5{pid}_1… and TestSeed5{pid}_2…; do not use `git stash` (shared between worktrees) — revert with `git checkout -- <file>`; ignore files named verif_on.go / verif_off.go and `verifPoint(...)` calls (test instrumentation, no-op in normal builds): do not build your change or demo on them."
print(base)
