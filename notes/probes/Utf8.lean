namespace Utf8
abbrev Bytes := List UInt8

/-- Go's utf8.DecodeRuneInString: returns (rune, size); (0xFFFD,1) on invalid; (0xFFFD,0) on empty. -/
def decode : Bytes → Nat × Nat
  | [] => (0xFFFD, 0)
  | b0 :: rest =>
    let c0 := b0.toNat
    if c0 < 0x80 then (c0, 1)
    else if c0 < 0xC2 then (0xFFFD, 1)
    else if c0 < 0xE0 then
      match rest with
      | b1 :: _ => if 0x80 ≤ b1.toNat ∧ b1.toNat ≤ 0xBF then ((c0 &&& 0x1F) <<< 6 ||| (b1.toNat &&& 0x3F), 2) else (0xFFFD, 1)
      | _ => (0xFFFD, 1)
    else if c0 < 0xF0 then
      let lo := if c0 = 0xE0 then 0xA0 else 0x80
      let hi := if c0 = 0xED then 0x9F else 0xBF
      match rest with
      | b1 :: b2 :: _ =>
        if lo ≤ b1.toNat ∧ b1.toNat ≤ hi ∧ 0x80 ≤ b2.toNat ∧ b2.toNat ≤ 0xBF then
          ((c0 &&& 0x0F) <<< 12 ||| (b1.toNat &&& 0x3F) <<< 6 ||| (b2.toNat &&& 0x3F), 3)
        else (0xFFFD, 1)
      | _ => (0xFFFD, 1)
    else if c0 < 0xF5 then
      let lo := if c0 = 0xF0 then 0x90 else 0x80
      let hi := if c0 = 0xF4 then 0x8F else 0xBF
      match rest with
      | b1 :: b2 :: b3 :: _ =>
        if lo ≤ b1.toNat ∧ b1.toNat ≤ hi ∧ 0x80 ≤ b2.toNat ∧ b2.toNat ≤ 0xBF ∧ 0x80 ≤ b3.toNat ∧ b3.toNat ≤ 0xBF then
          ((c0 &&& 0x07) <<< 18 ||| (b1.toNat &&& 0x3F) <<< 12 ||| (b2.toNat &&& 0x3F) <<< 6 ||| (b3.toNat &&& 0x3F), 4)
        else (0xFFFD, 1)
      | _ => (0xFFFD, 1)
    else (0xFFFD, 1)

theorem decode_size_pos (b : UInt8) (r : Bytes) : 1 ≤ (decode (b :: r)).2 := by
  unfold decode
  simp only
  repeat' split
  all_goals simp

/-- the rune chunks of s: list of (chunkBytes, rune, isInvalidByte) -/
def chunks (s : Bytes) : List (Bytes × Nat × Bool) :=
  match s with
  | [] => []
  | b :: r =>
    let d := decode (b :: r)
    ((b :: r).take d.2, d.1, d.1 == 0xFFFD && d.2 == 1) :: chunks ((b :: r).drop d.2)
termination_by s.length
decreasing_by
  simp only [List.length_drop, List.length_cons]
  have := decode_size_pos b r
  omega

/-- sdk/trace truncate, as written. -/
def truncate (limit : Int) (s : Bytes) : Bytes :=
  if limit < 0 ∨ (s.length : Int) ≤ limit then s else
  let lim := limit.toNat
  -- fast loop: walk chunks; state (consumedBytes, count)
  let rec fast (cs : List (Bytes × Nat × Bool)) (pre : Bytes) (count : Nat) : Sum Bytes (Bytes × Nat × Bytes) :=
    match cs with
    | [] => .inl s                       -- loop ended, b.Cap()==0 -> return s
    | (c, r, inv) :: tl =>
      if r ≠ 0xFFFD then
        if count + 1 > lim then .inl pre else fast tl (pre ++ c) (count + 1)
      else if inv then .inr (pre, count, (c :: tl.map (·.1)).flatten)   -- break into slow path
      else fast tl (pre ++ c) count        -- valid U+FFFD: NOT counted (as written)
  match fast (chunks s) [] 0 with
  | .inl r => r
  | .inr (pre, count, rest) =>
    if s.length - 1 = 0 then rest else     -- b.Grow(len(s)-1) leaves Cap()==0 iff len(s)=1 -> "fast path" return s (= rest)
    let rec slow (cs : List (Bytes × Nat × Bool)) (acc : Bytes) (count : Nat) : Bytes :=
      match cs with
      | [] => acc
      | (c, _, inv) :: tl =>
        if count ≥ lim then acc
        else if inv then slow tl acc count
        else slow tl (acc ++ c) (count + 1)
    slow (chunks rest) pre count

/-- reference: first `limit` valid runes when len s > limit -/
def refTrunc (limit : Int) (s : Bytes) : Bytes :=
  if limit < 0 ∨ (s.length : Int) ≤ limit then s else
  (((chunks s).filter (fun c => !c.2.2)).take limit.toNat |>.map (·.1)).flatten

def hex (s : Bytes) : String := String.join (s.map fun b => (if b < 16 then "0" else "") ++ String.ofList (Nat.toDigits 16 b.toNat))

#eval hex (truncate 1 [0xEF,0xBF,0xBD,0xEF,0xBF,0xBD,0xEF,0xBF,0xBD])   -- F2: all 9 bytes
#eval hex (refTrunc 1 [0xEF,0xBF,0xBD,0xEF,0xBF,0xBD,0xEF,0xBF,0xBD])
#eval hex (truncate 0 [0xFF])   -- F3: ff
#eval hex (truncate 0 [0xFF, 0x61])
#eval hex (truncate 2 [0x61, 0xFF, 0xC5, 0xA1, 0x62, 0x63])
#eval hex (refTrunc 2 [0x61, 0xFF, 0xC5, 0xA1, 0x62, 0x63])
end Utf8
