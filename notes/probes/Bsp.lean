namespace Bsp

structure St where
  cap      : Nat
  maxB     : Nat
  queue    : List Nat
  batch    : List Nat
  exported : List (List Nat)
  dropped  : List Nat
  seen     : List Nat
  pending  : Bool     -- worker appended up to maxB and must export before it appends again

inductive Lbl
  | enqueue (id : Nat)
  | take
  | workerExport
  | otherExport        -- timer-triggered or ForceFlush-triggered export (any time)

def export_ (s : St) : St :=
  if s.batch = [] then s else { s with exported := s.exported ++ [s.batch], batch := [] }

def step (s : St) : Lbl → Option St
  | .enqueue id =>
      if id ∈ s.seen then none
      else if s.queue.length < s.cap then
        some { s with queue := s.queue ++ [id], seen := id :: s.seen }
      else some { s with dropped := s.dropped ++ [id], seen := id :: s.seen }
  | .take =>
      if s.pending then none else
      match s.queue with
      | [] => none
      | x :: q =>
        let b := s.batch ++ [x]
        some { s with queue := q, batch := b, pending := decide (b.length ≥ s.maxB) }
  | .workerExport => if s.pending then some { export_ s with pending := false } else none
  | .otherExport  => some (export_ s)

def all (s : St) : List Nat := s.queue ++ s.batch ++ s.exported.flatten ++ s.dropped

structure Inv (s : St) : Prop where
  pos     : 1 ≤ s.maxB
  bound   : s.batch.length ≤ s.maxB
  strict  : s.pending = false → s.batch.length < s.maxB
  expB    : ∀ b ∈ s.exported, b.length ≤ s.maxB
  cnt     : ∀ a, (all s).count a = s.seen.count a
  nodup   : s.seen.Nodup

theorem export_all (s : St) (a : Nat) : (all (export_ s)).count a = (all s).count a := by
  unfold export_ all
  split
  · rfl
  · simp [List.flatten_append, List.count_append]; omega

theorem inv_export (s : St) (h : Inv s) : Inv (export_ s) := by
  have hp := export_all s
  unfold export_ at *
  split
  · simpa using h
  · rename_i hne
    simp only [hne, if_false] at hp
    refine ⟨h.pos, by simp, by intro _; simp; exact h.pos, ?_, fun a => (hp a).trans (h.cnt a), h.nodup⟩
    intro b hb
    simp at hb
    rcases hb with hb | hb
    · exact h.expB b hb
    · subst hb; exact h.bound

theorem inv_step (s s' : St) (l : Lbl) (h : Inv s) (hs : step s l = some s') : Inv s' := by
  cases l with
  | enqueue id =>
    simp only [step] at hs
    split at hs
    · simp at hs
    · rename_i hid
      split at hs <;> (simp at hs; subst hs)
      · refine ⟨h.pos, h.bound, h.strict, h.expB, ?_, List.nodup_cons.mpr ⟨hid, h.nodup⟩⟩
        intro a
        have := h.cnt a
        simp only [all, List.count_append, List.count_cons, List.count_nil] at this ⊢
        omega
      · refine ⟨h.pos, h.bound, h.strict, h.expB, ?_, List.nodup_cons.mpr ⟨hid, h.nodup⟩⟩
        intro a
        have := h.cnt a
        simp only [all, List.count_append, List.count_cons, List.count_nil] at this ⊢
        omega
  | take =>
    simp only [step] at hs
    split at hs
    · simp at hs
    · rename_i hpend
      split at hs
      · simp at hs
      · rename_i x q hq
        simp at hs; subst hs
        have hlt := h.strict (by simpa using hpend)
        refine ⟨h.pos, by simp; omega, ?_, h.expB, ?_, h.nodup⟩
        · intro hp; simp at hp ⊢; omega
        · intro a
          have := h.cnt a
          simp only [all, hq, List.count_append, List.count_cons, List.count_nil] at this ⊢
          omega
  | workerExport =>
    simp only [step] at hs
    split at hs
    · simp at hs; subst hs
      have := inv_export s h
      exact ⟨this.pos, this.bound, fun _ => by
        unfold export_; split
        · rename_i hb; simp [hb]; exact h.pos
        · simp; exact h.pos, this.expB, this.cnt, this.nodup⟩
    · simp at hs
  | otherExport =>
    simp only [step] at hs
    simp at hs; subst hs
    have := inv_export s h
    refine ⟨this.pos, this.bound, ?_, this.expB, this.cnt, this.nodup⟩
    intro hp
    unfold export_ at hp ⊢
    split
    · rename_i hb; simp [hb] at hp ⊢; have := h.strict hp; simpa [hb] using this
    · simp; exact h.pos

/-- corollary: no span id is exported twice -/
theorem exported_nodup (s : St) (h : Inv s) : s.exported.flatten.Nodup := by
  rw [List.nodup_iff_count]
  intro a
  have h1 := h.cnt a
  have h2 := (List.nodup_iff_count.mp h.nodup) a
  simp only [all, List.count_append] at h1
  omega
end Bsp
