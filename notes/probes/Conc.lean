namespace Conc

inductive PC | idle | inTask | relock | snap | deliver | done
deriving DecidableEq, Repr

structure St where
  ended  : Bool
  onEnd  : Nat
  thr    : List PC

/-- one atomic step of thread `i`; `hasTask` = runtime tracing enabled for the span -/
def step (hasTask : Bool) (s : St) (i : Nat) : St :=
  match s.thr[i]? with
  | none => s
  | some .idle =>
      if s.ended then { s with thr := s.thr.set i .done }
      else if hasTask then { s with thr := s.thr.set i .inTask }
      else { s with ended := true, thr := s.thr.set i .snap }
  | some .inTask  => { s with thr := s.thr.set i .relock }
  | some .relock  => { s with ended := true, thr := s.thr.set i .snap }
  | some .snap    => { s with thr := s.thr.set i .deliver }
  | some .deliver => { s with onEnd := s.onEnd + 1, thr := s.thr.set i .done }
  | some .done    => s

def pending (p : PC) : Bool := p == .snap || p == .deliver

def Inv (s : St) : Prop :=
  s.thr.countP pending + s.onEnd = (if s.ended then 1 else 0)

def init (n : Nat) : St := { ended := false, onEnd := 0, thr := List.replicate n .idle }

theorem countP_set (l : List PC) (i : Nat) (p q : PC) (h : l[i]? = some p) :
    (l.set i q).countP pending + (if pending p then 1 else 0)
      = l.countP pending + (if pending q then 1 else 0) := by
  induction l generalizing i with
  | nil => simp at h
  | cons a t ih =>
    cases i with
    | zero =>
      simp at h; subst h
      simp [List.countP_cons]; omega
    | succ j =>
      simp at h
      have := ih j h
      simp [List.countP_cons]; omega

theorem inv_init (n : Nat) : Inv (init n) := by
  simp [Inv, init, List.countP_replicate, pending]

theorem inv_step (s : St) (i : Nat) (h : Inv s) : Inv (step false s i) := by
  unfold step
  split
  · exact h
  · rename_i hp
    split
    · have := countP_set s.thr i _ .done hp; simp [Inv, pending] at *; omega
    · have := countP_set s.thr i _ .snap hp; simp [Inv, pending] at *; simp_all
  · rename_i hp; have := countP_set s.thr i _ .relock hp; simp [Inv, pending] at *; omega
  · rename_i hp; have := countP_set s.thr i _ .snap hp; simp [Inv, pending] at *
    -- relock is unreachable when hasTask = false; needs a second invariant
    sorry
  · rename_i hp; have := countP_set s.thr i _ .deliver hp; simp [Inv, pending] at *; omega
  · rename_i hp; have := countP_set s.thr i _ .done hp; simp [Inv, pending] at *; omega
  · exact h
