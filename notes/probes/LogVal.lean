namespace LogVal
abbrev Bytes := List UInt8

inductive V where
  | str (s : Bytes)
  | int (i : Int)
  | slice (l : List V)
  | map (l : List (Bytes × V))

/-- abstract truncation: anything that shortens to ≤ limit -/
def trunc (limit : Nat) (s : Bytes) : Bytes := s.take limit

mutual
  def apply (limit : Nat) : V → V
    | .str s => .str (trunc limit s)
    | .int i => .int i
    | .slice l => .slice (applyList limit l)
    | .map l => .map (applyKVs limit l)
  def applyList (limit : Nat) : List V → List V
    | [] => []
    | v :: vs => apply limit v :: applyList limit vs
  def applyKVs (limit : Nat) : List (Bytes × V) → List (Bytes × V)
    | [] => []
    | (k, v) :: kvs => (k, apply limit v) :: applyKVs limit kvs
end

mutual
  def bounded (limit : Nat) : V → Prop
    | .str s => s.length ≤ limit
    | .int _ => True
    | .slice l => boundedList limit l
    | .map l => boundedKVs limit l
  def boundedList (limit : Nat) : List V → Prop
    | [] => True
    | v :: vs => bounded limit v ∧ boundedList limit vs
  def boundedKVs (limit : Nat) : List (Bytes × V) → Prop
    | [] => True
    | (_, v) :: kvs => bounded limit v ∧ boundedKVs limit kvs
end

mutual
  theorem apply_bounded (limit : Nat) : ∀ v, bounded limit (apply limit v)
    | .str s => by simp [apply, bounded, trunc]; omega
    | .int _ => by simp [apply, bounded]
    | .slice l => by simp [apply, bounded]; exact applyList_bounded limit l
    | .map l => by simp [apply, bounded]; exact applyKVs_bounded limit l
  theorem applyList_bounded (limit : Nat) : ∀ l, boundedList limit (applyList limit l)
    | [] => by simp [applyList, boundedList]
    | v :: vs => by simp [applyList, boundedList]; exact ⟨apply_bounded limit v, applyList_bounded limit vs⟩
  theorem applyKVs_bounded (limit : Nat) : ∀ l, boundedKVs limit (applyKVs limit l)
    | [] => by simp [applyKVs, boundedKVs]
    | (k, v) :: kvs => by simp [applyKVs, boundedKVs]; exact ⟨apply_bounded limit v, applyKVs_bounded limit kvs⟩
end
end LogVal
