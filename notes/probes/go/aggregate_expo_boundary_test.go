package aggregate

import (
	"math"
	"math/big"
	"testing"

	"go.opentelemetry.io/otel/attribute"
)

const prec = 300

// roots[k] = 2^(2^-k)
var roots []*big.Float

func init() {
	r := new(big.Float).SetPrec(prec).SetInt64(2)
	roots = append(roots, r)
	for k := 1; k <= 20; k++ {
		r = new(big.Float).SetPrec(prec).Sqrt(r)
		roots = append(roots, r)
	}
}

// boundary(i, s) = 2^(i / 2^s) for s>0
func boundary(i int64, s int) *big.Float {
	n := int64(1) << s
	q := i >> s // floor div
	r := i - q*n
	res := new(big.Float).SetPrec(prec).SetInt64(1)
	for k := 1; k <= s; k++ {
		if r&(int64(1)<<(s-k)) != 0 {
			res.Mul(res, roots[k])
		}
	}
	return res.SetMantExp(res, int(q))
}

func TestVerifExpoBoundary(t *testing.T) {
	bad := 0
	total := 0
	for _, s := range []int{1, 2, 5, 10, 16, 20} {
		p := newExpoHistogramDataPoint[float64](attribute.NewSet(), 160, int32(s), false, false)
		n := int64(1) << s
		for _, i := range []int64{0, 1, 2, 3, n - 1, n, n + 1, 5*n + 7, -1, -2, -n, -n - 1, 100*n + 12345%n, -300*n + 3} {
			for d := int64(0); d < 200; d++ {
				idx := i + d*7919%n
				b := boundary(idx, s) // exact lower boundary of bucket idx: base^idx
				f, _ := b.Float64()
				for _, v := range []float64{math.Nextafter(f, 0), f, math.Nextafter(f, math.Inf(1)), math.Nextafter(math.Nextafter(f, math.Inf(1)), math.Inf(1))} {
					got := int64(p.getBin(v))
					// exact: largest j with base^j < v
					bv := new(big.Float).SetPrec(prec).SetFloat64(v)
					exact := idx
					if b.Cmp(bv) >= 0 { // base^idx >= v -> bucket idx-1
						exact = idx - 1
						if boundary(idx-1, s).Cmp(bv) >= 0 {
							exact = idx - 2
						}
					} else if boundary(idx+1, s).Cmp(bv) < 0 {
						exact = idx + 1
					}
					total++
					if got != exact {
						bad++
						if bad <= 8 {
							t.Logf("scale=%d v=%x (%.17g) impl=%d exact=%d", s, math.Float64bits(v), v, got, exact)
						}
					}
				}
			}
		}
	}
	t.Logf("mismatches %d / %d", bad, total)
}
