package transform

import (
	"testing"
	"time"

	"google.golang.org/protobuf/proto"

	"go.opentelemetry.io/otel/attribute"
	api "go.opentelemetry.io/otel/log"
	"go.opentelemetry.io/otel/sdk/instrumentation"
	"go.opentelemetry.io/otel/sdk/log"
	"go.opentelemetry.io/otel/sdk/log/logtest"
	"go.opentelemetry.io/otel/sdk/resource"
	"go.opentelemetry.io/otel/trace"
	lpb "go.opentelemetry.io/proto/otlp/logs/v1"
)

func encL(f logtest.RecordFactory) string {
	rl := ResourceLogs([]log.Record{f.NewRecord()})
	b, _ := proto.MarshalOptions{Deterministic: true}.Marshal(&lpb.LogsData{ResourceLogs: rl})
	return string(b)
}

func TestVerifLogSensitivity(t *testing.T) {
	base := func() logtest.RecordFactory {
		return logtest.RecordFactory{
			EventName: "ev", Timestamp: time.Unix(1, 0), ObservedTimestamp: time.Unix(2, 0), Severity: api.SeverityWarn, SeverityText: "W",
			Body: api.MapValue(api.String("b", "1")), Attributes: []api.KeyValue{api.String("k", "v"), api.Slice("s", api.IntValue(1))},
			TraceID: trace.TraceID{1}, SpanID: trace.SpanID{2}, TraceFlags: 1, DroppedAttributes: 3,
			Resource:             resource.NewWithAttributes("rs", attribute.String("r", "1")),
			InstrumentationScope: &instrumentation.Scope{Name: "s", Version: "v", SchemaURL: "ss", Attributes: attribute.NewSet(attribute.String("sa", "1"))},
		}
	}
	b := encL(base())
	muts := map[string]func(f *logtest.RecordFactory){
		"event name":   func(f *logtest.RecordFactory) { f.EventName = "x" },
		"timestamp":    func(f *logtest.RecordFactory) { f.Timestamp = time.Unix(5, 0) },
		"observed":     func(f *logtest.RecordFactory) { f.ObservedTimestamp = time.Unix(5, 0) },
		"severity":     func(f *logtest.RecordFactory) { f.Severity = api.SeverityError },
		"severitytext": func(f *logtest.RecordFactory) { f.SeverityText = "E" },
		"body":         func(f *logtest.RecordFactory) { f.Body = api.MapValue(api.String("b", "2")) },
		"attr":         func(f *logtest.RecordFactory) { f.Attributes = f.Attributes[:1] },
		"traceid":      func(f *logtest.RecordFactory) { f.TraceID = trace.TraceID{9} },
		"spanid":       func(f *logtest.RecordFactory) { f.SpanID = trace.SpanID{9} },
		"flags":        func(f *logtest.RecordFactory) { f.TraceFlags = 0 },
		"dropped":      func(f *logtest.RecordFactory) { f.DroppedAttributes = 9 },
		"res attr":     func(f *logtest.RecordFactory) { f.Resource = resource.NewWithAttributes("rs", attribute.String("r", "2")) },
		"res schema":   func(f *logtest.RecordFactory) { f.Resource = resource.NewWithAttributes("rs2", attribute.String("r", "1")) },
		"scope name":   func(f *logtest.RecordFactory) { f.InstrumentationScope.Name = "t" },
		"scope ver":    func(f *logtest.RecordFactory) { f.InstrumentationScope.Version = "w" },
		"scope schema": func(f *logtest.RecordFactory) { f.InstrumentationScope.SchemaURL = "tt" },
		"scope attrs":  func(f *logtest.RecordFactory) { f.InstrumentationScope.Attributes = attribute.NewSet(attribute.String("sa", "2")) },
	}
	for name, m := range muts {
		f := base()
		m(&f)
		if encL(f) == b {
			t.Logf("INSENSITIVE: %s", name)
		}
	}
}
