package trace

import (
	"math/rand"
	"strings"
	"testing"
	"unicode/utf8"
)

func refTrunc(limit int, s string) string {
	if limit < 0 || len(s) <= limit {
		return s
	}
	var b strings.Builder
	n := 0
	for i := 0; i < len(s) && n < limit; {
		r, size := utf8.DecodeRuneInString(s[i:])
		if r == utf8.RuneError && size == 1 {
			i++
			continue
		}
		b.WriteString(s[i : i+size])
		i += size
		n++
	}
	return b.String()
}

func TestVerifTruncateRef(t *testing.T) {
	alpha := []string{"a", "b", "\xc5\xa1", "\xef\xbf\xbd", "\xf0\x9f\x98\x80", "\xff", "\x80", "\xe2\x82", "\xc5"}
	rng := rand.New(rand.NewSource(1))
	bad := 0
	for i := 0; i < 300000; i++ {
		var sb strings.Builder
		for k := rng.Intn(7); k > 0; k-- {
			sb.WriteString(alpha[rng.Intn(len(alpha))])
		}
		s := sb.String()
		limit := rng.Intn(6) - 1
		got, want := truncate(limit, s), refTrunc(limit, s)
		// reference differs from the documented behaviour in one respect: when nothing needs cutting (valid runes <= limit)
		// and the input has invalid bytes the code still drops them once len(s) > limit; both do the same here.
		if got != want {
			bad++
			if bad < 10 {
				t.Logf("limit=%d s=%q got=%q want=%q", limit, s, got, want)
			}
		}
	}
	t.Logf("bad=%d", bad)
}
