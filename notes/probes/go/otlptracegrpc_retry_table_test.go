package otlptracegrpc

import (
	"testing"
	"time"

	"google.golang.org/genproto/googleapis/rpc/errdetails"
	"google.golang.org/grpc/codes"
	"google.golang.org/grpc/status"
	"google.golang.org/protobuf/types/known/durationpb"
)

func TestVerifGRPCTable(t *testing.T) {
	for c := codes.Code(0); c <= 16; c++ {
		s := status.New(c, "x")
		r1, d1 := retryableGRPCStatus(s)
		s2, _ := s.WithDetails(&errdetails.RetryInfo{RetryDelay: durationpb.New(3 * time.Second)})
		var r2 bool
		var d2 time.Duration
		if s2 != nil {
			r2, d2 = retryableGRPCStatus(s2)
		}
		t.Logf("%-20v plain=(%v,%v) withRetryInfo=(%v,%v)", c, r1, d1, r2, d2)
	}
}
