package prometheus

import (
	"context"
	"fmt"
	"math/rand"
	"strings"
	"testing"

	"github.com/prometheus/client_golang/prometheus"
	"go.opentelemetry.io/otel"
	"go.opentelemetry.io/otel/attribute"
	"go.opentelemetry.io/otel/metric"
	sdkmetric "go.opentelemetry.io/otel/sdk/metric"
)

type capReg struct{ c prometheus.Collector }

func (r *capReg) Register(c prometheus.Collector) error  { r.c = c; return nil }
func (r *capReg) MustRegister(cs ...prometheus.Collector) { r.c = cs[0] }
func (r *capReg) Unregister(prometheus.Collector) bool    { return true }

type safeC struct {
	inner    prometheus.Collector
	panicked *string
}

func (s safeC) Describe(ch chan<- *prometheus.Desc) { s.inner.Describe(ch) }
func (s safeC) Collect(ch chan<- prometheus.Metric) {
	defer func() {
		if r := recover(); r != nil {
			*s.panicked = fmt.Sprint(r)
		}
	}()
	s.inner.Collect(ch)
}

func TestVerifPromNames(t *testing.T) {
	var handled []string
	otel.SetErrorHandler(otel.ErrorHandlerFunc(func(err error) { handled = append(handled, err.Error()) }))
	rng := rand.New(rand.NewSource(3))
	parts := []string{"total", "seconds", "bytes", "ratio", "a", "b", "req", "_", ".", "-", "/", "Total", "milliseconds", "1", "x"}
	units := []string{"", "s", "ms", "By", "1", "%", "unknown", "{req}"}
	stats := map[string]int{}
	shown := map[string]int{}
	for it := 0; it < 6000; it++ {
		var sb strings.Builder
		sb.WriteString([]string{"a", "total", "seconds", "req", "T"}[rng.Intn(5)])
		for k := rng.Intn(4); k > 0; k-- {
			sb.WriteString(parts[rng.Intn(len(parts))])
		}
		name := sb.String()
		unit := units[rng.Intn(len(units))]
		kind := rng.Intn(5)
		var opts []Option
		optDesc := ""
		if rng.Intn(4) == 0 {
			opts = append(opts, WithoutUnits()); optDesc += "nounits "
		}
		if rng.Intn(4) == 0 {
			opts = append(opts, WithoutCounterSuffixes()); optDesc += "nosuffix "
		}
		if rng.Intn(4) == 0 {
			opts = append(opts, WithNamespace("ns")); optDesc += "ns "
		}
		cr := &capReg{}
		exp, err := New(append(opts, WithRegisterer(cr))...)
		if err != nil {
			t.Fatal(err)
		}
		mp := sdkmetric.NewMeterProvider(sdkmetric.WithReader(exp))
		m := mp.Meter("m")
		attrs := metric.WithAttributes(attribute.String("a.b", "1"), attribute.String("a_b", "2"), attribute.Int("c", 3))
		var cerr error
		switch kind {
		case 0:
			var c metric.Int64Counter
			c, cerr = m.Int64Counter(name, metric.WithUnit(unit))
			if cerr == nil { c.Add(context.Background(), 5, attrs) }
		case 1:
			var c metric.Float64UpDownCounter
			c, cerr = m.Float64UpDownCounter(name, metric.WithUnit(unit))
			if cerr == nil { c.Add(context.Background(), -2.5, attrs) }
		case 2:
			var c metric.Float64Histogram
			c, cerr = m.Float64Histogram(name, metric.WithUnit(unit))
			if cerr == nil { c.Record(context.Background(), 3, attrs) }
		case 3:
			var c metric.Int64Gauge
			c, cerr = m.Int64Gauge(name, metric.WithUnit(unit))
			if cerr == nil { c.Record(context.Background(), 7, attrs) }
		case 4:
			var c metric.Float64Counter
			c, cerr = m.Float64Counter(name, metric.WithUnit(unit))
			if cerr == nil { c.Add(context.Background(), 1.5, attrs) }
		}
		if cerr != nil {
			stats["create-err"]++
			continue
		}
		handled = nil
		var pan string
		reg := prometheus.NewPedanticRegistry()
		if err := reg.Register(safeC{cr.c, &pan}); err != nil {
			stats["register-err"]++
		}
		mfs, gerr := reg.Gather()
		key := "ok"
		switch {
		case pan != "":
			key = "PANIC " + pan
		case gerr != nil:
			key = "GATHER-ERR " + strings.Split(gerr.Error(), "\n")[0]
			if len(key) > 90 { key = key[:90] }
		case len(handled) > 0:
			key = "HANDLED " + handled[0]
		default:
			found := false
			for _, mf := range mfs {
				n := mf.GetName()
				if n != "target_info" && n != "otel_scope_info" {
					found = true
					wantTotal := (kind == 0 || kind == 4) && !strings.Contains(optDesc, "nosuffix")
					if wantTotal != strings.HasSuffix(n, "_total") {
						key = "SUFFIX-MISMATCH"
					}
					if strings.Contains(n, "_total_total") || strings.HasSuffix(n, "seconds_seconds") {
						key = "DUP-SUFFIX"
					}
				}
			}
			if !found {
				key = "MISSING"
			}
		}
		stats[key]++
		if key != "ok" && shown[key] < 3 {
			shown[key]++
			t.Logf("%s: name=%q unit=%q kind=%d opts=%s", key, name, unit, kind, optDesc)
		}
	}
	for k, v := range stats {
		t.Logf("%6d %s", v, k)
	}
}
