package log

import (
	"fmt"
	"math/rand"
	"strings"
	"testing"
	"unicode/utf8"

	"go.opentelemetry.io/otel/log"
)

func refTrunc(limit int, s string) string {
	if limit < 0 || len(s) <= limit {
		return s
	}
	var b strings.Builder
	n := 0
	for i := 0; i < len(s) && n < limit; {
		r, size := utf8.DecodeRuneInString(s[i:])
		if r == utf8.RuneError && size == 1 {
			i++
			continue
		}
		b.WriteString(s[i : i+size])
		i += size
		n++
	}
	return b.String()
}

type rkv struct {
	k string
	v log.Value
}
type ref struct {
	kvs     []rkv
	dropped int
	cl, ll  int
}

func (r *ref) dedup(in []log.KeyValue) ([]rkv, int) {
	var out []rkv
	d := 0
	for _, a := range in {
		found := false
		for i := range out {
			if out[i].k == a.Key {
				out[i].v = a.Value
				found = true
				d++
				break
			}
		}
		if !found {
			out = append(out, rkv{a.Key, a.Value})
		}
	}
	return out, d
}
func (r *ref) lim(v log.Value) log.Value {
	switch v.Kind() {
	case log.KindString:
		return log.StringValue(refTrunc(r.ll, v.AsString()))
	case log.KindSlice:
		var out []log.Value
		for _, e := range v.AsSlice() {
			out = append(out, r.lim(e))
		}
		return log.SliceValue(out...)
	case log.KindMap:
		kvs, d := r.dedup(v.AsMap())
		r.dropped += d
		var out []log.KeyValue
		for _, kv := range kvs {
			out = append(out, log.KeyValue{Key: kv.k, Value: r.lim(kv.v)})
		}
		return log.MapValue(out...)
	}
	return v
}
func (r *ref) set(in []log.KeyValue) {
	u, d := r.dedup(in)
	r.dropped = d
	if r.cl > 0 && len(u) > r.cl {
		r.dropped += len(u) - r.cl
		u = u[:r.cl]
	}
	r.kvs = nil
	for _, kv := range u {
		r.kvs = append(r.kvs, rkv{kv.k, r.lim(kv.v)})
	}
}
func (r *ref) add(in []log.KeyValue) {
	if len(r.kvs) == 0 {
		r.set(in)
		return
	}
	var u []rkv
	for _, a := range in {
		done := false
		for i := range u {
			if u[i].k == a.Key {
				u[i].v = a.Value
				r.dropped++
				done = true
				break
			}
		}
		if done {
			continue
		}
		for i := range r.kvs {
			if r.kvs[i].k == a.Key {
				r.dropped++
				r.kvs[i].v = r.lim(a.Value)
				done = true
				break
			}
		}
		if !done {
			u = append(u, rkv{a.Key, a.Value})
		}
	}
	n := len(r.kvs)
	if r.cl > 0 && n+len(u) > r.cl {
		last := r.cl - n
		if last < 0 {
			last = 0
		}
		r.dropped += len(u) - last
		u = u[:last]
	}
	for _, kv := range u {
		r.kvs = append(r.kvs, rkv{kv.k, r.lim(kv.v)})
	}
}
func (r *ref) dump() string {
	var sb strings.Builder
	for _, kv := range r.kvs {
		fmt.Fprintf(&sb, "%s=%q;", kv.k, kv.v.String())
	}
	fmt.Fprintf(&sb, "|%d|%d", len(r.kvs), r.dropped)
	return sb.String()
}
func dumpRec(r *Record) string {
	var sb strings.Builder
	r.WalkAttributes(func(kv log.KeyValue) bool { fmt.Fprintf(&sb, "%s=%q;", kv.Key, kv.Value.String()); return true })
	fmt.Fprintf(&sb, "|%d|%d", r.AttributesLen(), r.DroppedAttributes())
	return sb.String()
}

func deepV(v log.Value) log.Value {
	switch v.Kind() {
	case log.KindSlice:
		var out []log.Value
		for _, e := range v.AsSlice() {
			out = append(out, deepV(e))
		}
		return log.SliceValue(out...)
	case log.KindMap:
		return log.MapValue(deepKVs(v.AsMap())...)
	}
	return v
}
func deepKVs(in []log.KeyValue) []log.KeyValue {
	var out []log.KeyValue
	for _, kv := range in {
		out = append(out, log.KeyValue{Key: kv.Key, Value: deepV(kv.Value)})
	}
	return out
}

func TestVerifRecordRef(t *testing.T) {
	rng := rand.New(rand.NewSource(7))
	keys := []string{"a", "b", "c", "d", "e", "f", "g", ""}
	strs := []string{"", "x", "hello", "h\xc5\xa1llo", "\xef\xbf\xbd\xef\xbf\xbdz", "\xffab", "\xff"}
	var genV func(d int) log.Value
	genV = func(d int) log.Value {
		switch rng.Intn(6) {
		case 0:
			return log.IntValue(rng.Intn(3))
		case 1:
			if d > 0 {
				var es []log.Value
				for i := rng.Intn(3); i > 0; i-- {
					es = append(es, genV(d-1))
				}
				return log.SliceValue(es...)
			}
		case 2:
			if d > 0 {
				var es []log.KeyValue
				for i := rng.Intn(4); i > 0; i-- {
					es = append(es, log.KeyValue{Key: keys[rng.Intn(3)], Value: genV(d - 1)})
				}
				return log.MapValue(es...)
			}
		}
		return log.StringValue(strs[rng.Intn(len(strs))])
	}
	bad := 0
	for it := 0; it < 60000; it++ {
		cl := []int{-1, 0, 1, 2, 5, 6, 7}[rng.Intn(7)]
		ll := []int{-1, 0, 1, 3}[rng.Intn(4)]
		rec := &Record{attributeCountLimit: cl, attributeValueLengthLimit: ll}
		rf := &ref{cl: cl, ll: ll}
		var script []string
		for step := 0; step < 1+rng.Intn(4); step++ {
			var in []log.KeyValue
			for i := rng.Intn(8); i > 0; i-- {
				in = append(in, log.KeyValue{Key: keys[rng.Intn(len(keys))], Value: genV(2)})
			}
			in2 := deepKVs(in)
			desc := ""
			for _, kv := range in {
				desc += fmt.Sprintf("%s=%s,", kv.Key, kv.Value.String())
			}
			if rng.Intn(4) == 0 {
				rec.SetAttributes(in...)
				rf.set(in2)
				script = append(script, "set "+desc)
			} else {
				rec.AddAttributes(in...)
				rf.add(in2)
				script = append(script, "add "+desc)
			}
			if g, w := dumpRec(rec), rf.dump(); g != w {
				bad++
				if bad <= 6 {
					t.Logf("cl=%d ll=%d script=%q\n got=%s\nwant=%s", cl, ll, script, g, w)
				}
				break
			}
		}
	}
	t.Logf("bad=%d", bad)
}
