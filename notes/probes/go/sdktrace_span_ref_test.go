package trace

import (
	"context"
	"fmt"
	"math/rand"
	"strings"
	"testing"
	"unicode/utf8"

	"go.opentelemetry.io/otel/attribute"
	"go.opentelemetry.io/otel/codes"
	"go.opentelemetry.io/otel/trace"
)

func refTrunc2(limit int, s string) string {
	if limit < 0 || len(s) <= limit {
		return s
	}
	var b strings.Builder
	n := 0
	for i := 0; i < len(s) && n < limit; {
		r, size := utf8.DecodeRuneInString(s[i:])
		if r == utf8.RuneError && size == 1 {
			i++
			continue
		}
		b.WriteString(s[i : i+size])
		i += size
		n++
	}
	return b.String()
}

type capProc struct{ snaps []ReadOnlySpan }

func (c *capProc) OnStart(context.Context, ReadWriteSpan)  {}
func (c *capProc) OnEnd(s ReadOnlySpan)                     { c.snaps = append(c.snaps, s) }
func (c *capProc) Shutdown(context.Context) error           { return nil }
func (c *capProc) ForceFlush(context.Context) error         { return nil }

type refSpan struct {
	lim                  SpanLimits
	attrs                []attribute.KeyValue
	dAttrs               int
	events               []string
	dEvents              int
	links                []string
	dLinks               int
	status               Status
	name                 string
}

func (r *refSpan) trunc(a attribute.KeyValue) attribute.KeyValue {
	l := r.lim.AttributeValueLengthLimit
	if l < 0 {
		return a
	}
	switch a.Value.Type() {
	case attribute.STRING:
		return a.Key.String(refTrunc2(l, a.Value.AsString()))
	case attribute.STRINGSLICE:
		v := a.Value.AsStringSlice()
		for i := range v {
			v[i] = refTrunc2(l, v[i])
		}
		return a.Key.StringSlice(v)
	}
	return a
}
func (r *refSpan) setAttrs(in []attribute.KeyValue) {
	limit := r.lim.AttributeCountLimit
	for _, a := range in {
		if limit == 0 {
			r.dAttrs++
			continue
		}
		if !a.Valid() {
			r.dAttrs++
			continue
		}
		found := false
		for i := range r.attrs {
			if r.attrs[i].Key == a.Key {
				r.attrs[i] = r.trunc(a)
				found = true
				break
			}
		}
		if found {
			continue
		}
		if limit > 0 && len(r.attrs) >= limit {
			r.dAttrs++
			continue
		}
		r.attrs = append(r.attrs, r.trunc(a))
	}
}
func capAttrs(in []attribute.KeyValue, limit int) (string, int) {
	d := 0
	if limit == 0 {
		d = len(in)
		in = nil
	} else if limit > 0 && len(in) > limit {
		d = len(in) - limit
		in = in[:limit]
	}
	return fmt.Sprint(in), d
}
func fifo(q *[]string, dropped *int, capacity int, item string) {
	if capacity == 0 {
		*dropped++
		return
	}
	if capacity > 0 && len(*q) == capacity {
		*q = (*q)[1:]
		*dropped++
	}
	*q = append(*q, item)
}
func (r *refSpan) dump() string {
	return fmt.Sprintf("name=%s status=%v attrs=%v dA=%d events=%v dE=%d links=%v dL=%d", r.name, r.status, r.attrs, r.dAttrs, r.events, r.dEvents, r.links, r.dLinks)
}
func dumpSnap(s ReadOnlySpan) string {
	var ev, ln []string
	for _, e := range s.Events() {
		a, _ := capAttrs(e.Attributes, -1)
		ev = append(ev, fmt.Sprintf("%s%s/%d", e.Name, a, e.DroppedAttributeCount))
	}
	for _, l := range s.Links() {
		a, _ := capAttrs(l.Attributes, -1)
		ln = append(ln, fmt.Sprintf("%s%s/%d", l.SpanContext.SpanID(), a, l.DroppedAttributeCount))
	}
	return fmt.Sprintf("name=%s status=%v attrs=%v dA=%d events=%v dE=%d links=%v dL=%d", s.Name(), s.Status(), s.Attributes(), s.DroppedAttributes(), ev, s.DroppedEvents(), ln, s.DroppedLinks())
}

func TestVerifSpanRef(t *testing.T) {
	rng := rand.New(rand.NewSource(11))
	keys := []string{"a", "b", "c", "d", "e", ""}
	strs := []string{"", "x", "hello", "h\xc5\xa1llo", "\xef\xbf\xbd\xef\xbf\xbdz", "\xffab", "\xff"}
	lims := []int{-1, 0, 1, 2, 3, 5}
	genKV := func() attribute.KeyValue {
		k := keys[rng.Intn(len(keys))]
		switch rng.Intn(5) {
		case 0:
			return attribute.Int(k, rng.Intn(3))
		case 1:
			return attribute.StringSlice(k, []string{strs[rng.Intn(len(strs))], strs[rng.Intn(len(strs))]})
		case 2:
			return attribute.KeyValue{Key: attribute.Key(k)} // invalid value
		}
		return attribute.String(k, strs[rng.Intn(len(strs))])
	}
	genKVs := func(n int) []attribute.KeyValue {
		var out []attribute.KeyValue
		for i := rng.Intn(n); i > 0; i-- {
			out = append(out, genKV())
		}
		return out
	}
	bad := 0
	for it := 0; it < 40000; it++ {
		lim := SpanLimits{lims[rng.Intn(6)]*1 - 0, lims[rng.Intn(6)], lims[rng.Intn(6)], lims[rng.Intn(6)], lims[rng.Intn(6)], lims[rng.Intn(6)]}
		if lim.AttributeValueLengthLimit == 5 {
			lim.AttributeValueLengthLimit = 4
		}
		cp := &capProc{}
		tp := NewTracerProvider(WithRawSpanLimits(lim), WithSpanProcessor(cp), WithSampler(AlwaysSample()))
		_, sp := tp.Tracer("t").Start(context.Background(), "n0")
		rf := &refSpan{lim: lim, name: "n0"}
		var script []string
		nops := rng.Intn(10)
		for i := 0; i < nops; i++ {
			switch rng.Intn(6) {
			case 0, 1:
				in := genKVs(6)
				script = append(script, fmt.Sprintf("set%v", in))
				cpy := append([]attribute.KeyValue(nil), in...)
				sp.SetAttributes(in...)
				rf.setAttrs(cpy)
			case 2:
				in := genKVs(5)
				name := fmt.Sprintf("e%d", i)
				script = append(script, fmt.Sprintf("event %s%v", name, in))
				sp.AddEvent(name, trace.WithAttributes(in...))
				a, d := capAttrs(in, lim.AttributePerEventCountLimit)
				if len(in) == 0 {
					a = "[]"
				}
				fifo(&rf.events, &rf.dEvents, lim.EventCountLimit, fmt.Sprintf("%s%s/%d", name, a, d))
			case 3:
				in := genKVs(4)
				sid := trace.SpanID{byte(i + 1)}
				valid := rng.Intn(3) > 0
				sc := trace.SpanContext{}
				if valid {
					sc = trace.NewSpanContext(trace.SpanContextConfig{TraceID: trace.TraceID{9}, SpanID: sid})
				}
				script = append(script, fmt.Sprintf("link valid=%v %v", valid, in))
				sp.AddLink(trace.Link{SpanContext: sc, Attributes: in})
				if !valid && len(in) == 0 {
					break
				}
				a, d := capAttrs(in, lim.AttributePerLinkCountLimit)
				if len(in) == 0 {
					a = "[]"
				}
				fifo(&rf.links, &rf.dLinks, lim.LinkCountLimit, fmt.Sprintf("%s%s/%d", sc.SpanID(), a, d))
			case 4:
				c := codes.Code(rng.Intn(3))
				desc := strs[rng.Intn(3)]
				script = append(script, fmt.Sprintf("status %v %q", c, desc))
				sp.SetStatus(c, desc)
				if rf.status.Code <= c {
					rf.status = Status{Code: c}
					if c == codes.Error {
						rf.status.Description = desc
					}
				}
			case 5:
				n := fmt.Sprintf("n%d", i)
				script = append(script, "name "+n)
				sp.SetName(n)
				rf.name = n
			}
		}
		sp.End()
		sp.SetName("after-end")
		sp.SetAttributes(attribute.String("late", "x"))
		g, w := dumpSnap(cp.snaps[0]), rf.dump()
		// normalise nil vs empty
		g = strings.ReplaceAll(g, "[]", "<>")
		w = strings.ReplaceAll(w, "[]", "<>")
		if g != w {
			bad++
			if bad <= 5 {
				t.Logf("lim=%+v script=%q\n got=%s\nwant=%s", lim, script, g, w)
			}
		}
	}
	t.Logf("bad=%d", bad)
}
