package tracetransform

import (
	"testing"
	"time"

	"google.golang.org/protobuf/proto"

	"go.opentelemetry.io/otel/attribute"
	"go.opentelemetry.io/otel/codes"
	"go.opentelemetry.io/otel/sdk/instrumentation"
	"go.opentelemetry.io/otel/sdk/resource"
	tracesdk "go.opentelemetry.io/otel/sdk/trace"
	"go.opentelemetry.io/otel/sdk/trace/tracetest"
	"go.opentelemetry.io/otel/trace"
	tracepb "go.opentelemetry.io/proto/otlp/trace/v1"
)

func enc(s tracetest.SpanStub) string {
	rs := Spans([]tracesdk.ReadOnlySpan{s.Snapshot()})
	b, _ := proto.MarshalOptions{Deterministic: true}.Marshal(&tracepb.TracesData{ResourceSpans: rs})
	return string(b)
}

func TestVerifSensitivity(t *testing.T) {
	ts1, _ := trace.ParseTraceState("a=1")
	ts2, _ := trace.ParseTraceState("a=2")
	mk := func(ts trace.TraceState, flags trace.TraceFlags, remote bool) trace.SpanContext {
		return trace.NewSpanContext(trace.SpanContextConfig{TraceID: trace.TraceID{1}, SpanID: trace.SpanID{2}, TraceState: ts, TraceFlags: flags, Remote: remote})
	}
	base := func() tracetest.SpanStub {
		return tracetest.SpanStub{
			Name: "n", SpanContext: mk(ts1, 1, false), Parent: trace.NewSpanContext(trace.SpanContextConfig{TraceID: trace.TraceID{1}, SpanID: trace.SpanID{3}, TraceFlags: 1}),
			SpanKind: trace.SpanKindClient, StartTime: time.Unix(10, 0), EndTime: time.Unix(20, 0),
			Attributes: []attribute.KeyValue{attribute.String("k", "v")},
			Events:     []tracesdk.Event{{Name: "e", Time: time.Unix(11, 0), Attributes: []attribute.KeyValue{attribute.Int("x", 1)}, DroppedAttributeCount: 1}},
			Links:      []tracesdk.Link{{SpanContext: mk(ts1, 1, false), Attributes: []attribute.KeyValue{attribute.Int("y", 1)}, DroppedAttributeCount: 2}},
			Status:     tracesdk.Status{Code: codes.Error, Description: "d"}, DroppedAttributes: 3, DroppedEvents: 4, DroppedLinks: 5, ChildSpanCount: 6,
			Resource:               resource.NewWithAttributes("rs", attribute.String("r", "1")),
			InstrumentationLibrary: instrumentation.Scope{Name: "s", Version: "v", SchemaURL: "ss", Attributes: attribute.NewSet(attribute.String("sa", "1"))},
		}
	}
	b := enc(base())
	muts := map[string]func(s *tracetest.SpanStub){
		"name":            func(s *tracetest.SpanStub) { s.Name = "m" },
		"span tracestate": func(s *tracetest.SpanStub) { s.SpanContext = mk(ts2, 1, false) },
		"span flags":      func(s *tracetest.SpanStub) { s.SpanContext = mk(ts1, 0, false) },
		"parent spanid":   func(s *tracetest.SpanStub) { s.Parent = trace.NewSpanContext(trace.SpanContextConfig{TraceID: trace.TraceID{1}, SpanID: trace.SpanID{4}}) },
		"parent remote":   func(s *tracetest.SpanStub) { s.Parent = s.Parent.WithRemote(true) },
		"kind":            func(s *tracetest.SpanStub) { s.SpanKind = trace.SpanKindServer },
		"start":           func(s *tracetest.SpanStub) { s.StartTime = time.Unix(9, 0) },
		"end":             func(s *tracetest.SpanStub) { s.EndTime = time.Unix(21, 0) },
		"attr value":      func(s *tracetest.SpanStub) { s.Attributes = []attribute.KeyValue{attribute.String("k", "w")} },
		"event name":      func(s *tracetest.SpanStub) { s.Events[0].Name = "f" },
		"event time":      func(s *tracetest.SpanStub) { s.Events[0].Time = time.Unix(12, 0) },
		"event attr":      func(s *tracetest.SpanStub) { s.Events[0].Attributes = nil },
		"event dropped":   func(s *tracetest.SpanStub) { s.Events[0].DroppedAttributeCount = 9 },
		"link spanid":     func(s *tracetest.SpanStub) { s.Links[0].SpanContext = s.Links[0].SpanContext.WithSpanID(trace.SpanID{7}) },
		"link traceid":    func(s *tracetest.SpanStub) { s.Links[0].SpanContext = s.Links[0].SpanContext.WithTraceID(trace.TraceID{7}) },
		"link tracestate": func(s *tracetest.SpanStub) { s.Links[0].SpanContext = mk(ts2, 1, false) },
		"link flags":      func(s *tracetest.SpanStub) { s.Links[0].SpanContext = mk(ts1, 0, false) },
		"link remote":     func(s *tracetest.SpanStub) { s.Links[0].SpanContext = mk(ts1, 1, true) },
		"link attr":       func(s *tracetest.SpanStub) { s.Links[0].Attributes = nil },
		"link dropped":    func(s *tracetest.SpanStub) { s.Links[0].DroppedAttributeCount = 9 },
		"status code":     func(s *tracetest.SpanStub) { s.Status.Code = codes.Ok },
		"status desc":     func(s *tracetest.SpanStub) { s.Status.Description = "e" },
		"dropped attrs":   func(s *tracetest.SpanStub) { s.DroppedAttributes = 9 },
		"dropped events":  func(s *tracetest.SpanStub) { s.DroppedEvents = 9 },
		"dropped links":   func(s *tracetest.SpanStub) { s.DroppedLinks = 9 },
		"child count":     func(s *tracetest.SpanStub) { s.ChildSpanCount = 9 },
		"resource attr":   func(s *tracetest.SpanStub) { s.Resource = resource.NewWithAttributes("rs", attribute.String("r", "2")) },
		"resource schema": func(s *tracetest.SpanStub) { s.Resource = resource.NewWithAttributes("rs2", attribute.String("r", "1")) },
		"scope name":      func(s *tracetest.SpanStub) { s.InstrumentationLibrary.Name = "t" },
		"scope version":   func(s *tracetest.SpanStub) { s.InstrumentationLibrary.Version = "w" },
		"scope schema":    func(s *tracetest.SpanStub) { s.InstrumentationLibrary.SchemaURL = "tt" },
		"scope attrs":     func(s *tracetest.SpanStub) { s.InstrumentationLibrary.Attributes = attribute.NewSet(attribute.String("sa", "2")) },
	}
	for name, m := range muts {
		s := base()
		m(&s)
		if enc(s) == b {
			t.Logf("INSENSITIVE: %s", name)
		}
	}
}
